(* Poly.v — hand-written executable model of the LP-based part of
   pacti.terms.polyhedra.polyhedra.PolyhedralTermList:
   termlist_to_polytope, polytope_to_termlist, reduce_polytope, simplify,
   verify_polytope_containment, is_polytope_empty, refines, is_empty, optimize.
   scipy.optimize.linprog is an ORACLE (a parameter O); the correspondence harness
   replays the answers the implementation obtained.  Definitions only. *)
From Coq Require Import List String Bool QArith Qabs ZArith.
Import ListNotations.
Require Import Py ListsGen ConstGen Sem Term.
Local Open Scope Q_scope.

(* ---------- the LP oracle ---------- *)
Definition row := (list Q * Q)%type.                           (* coefficients, bound :  a·x <= b *)
Record lp_problem := mkLP { lp_obj : list Q; lp_rows : list row }.   (* minimise obj·x, x free *)
Inductive lp_answer :=
| LpOpt (fun_ : Q) (slack : list Q)      (* status 0 *)
| LpInfeasible                            (* status 2 *)
| LpUnbounded                             (* status 3 *)
| LpOther (status : Z)                    (* 1, 4: res.fun is None *)
| LpMiss.                                 (* replay table has no such call *)
Definition oracle := lp_problem -> lp_answer.

(* ---------- matrices ---------- *)
(* PolyhedralTerm.term_to_polytope *)
Definition term_to_row (vs : list var) (t : pterm) : row := (map (get_coefficient t) vs, tconst t).
(* variable order of termlist_to_polytope *)
Definition polytope_vars (terms ctx : list pterm) : list var := list_union (tl_vars terms) (tl_vars ctx).
(* PolyhedralTerm.polytope_to_term / polytope_to_termlist *)
Definition row_to_term (vs : list var) (r : row) : pterm := mk_term (combine vs (fst r)) (snd r).

(* a term without variables makes numpy shapes degenerate; outside the model (DESIGN 6) *)
Definition all_have_vars (ts : list pterm) : bool := forallb (fun t => nonempty (term_vars_p t)) ts.
Definition unmodelled {A} : M A := raise (Escape "unmodelled: constraint without variables").

(* ---------- reduce_polytope ---------- *)
(* the while-loop: `kept` are the rows before index i, `rest` the rows from i on *)
Fixpoint reduce_loop (O : oracle) (kept rest ctx : list row) : M (list row) :=
  match rest with
  | [] => ret kept
  | (a, b) :: rest' =>
      let prob := mkLP (map qneg a) (kept ++ (a, qadd b 1) :: rest' ++ ctx) in
      match O prob with
      | LpUnbounded => reduce_loop O kept rest' ctx
      | LpOpt f _ => if qle (qneg f) b then reduce_loop O kept rest' ctx
                     else reduce_loop O (kept ++ [(a, b)]) rest' ctx
      | LpInfeasible => raise ValueErr
      | LpOther _ => reduce_loop O (kept ++ [(a, b)]) rest' ctx     (* status 1/4: neither branch fires, row kept *)
      | LpMiss => raise OracleMiss
      end
  end.
Definition reduce_polytope (O : oracle) (rows ctx : list row) : M (list row) :=
  match rows with
  | [] => ret []
  | [r] => match ctx with [] => ret [r] | _ => reduce_loop O [] rows ctx end
  | _ => reduce_loop O [] rows ctx
  end.

(* ---------- simplify ---------- *)
Definition poly_simplify (O : oracle) (self : list pterm) (context : option (list pterm)) : M (list pterm) :=
  let ctx := opt_list context in
  let new_self := match context with Some c => list_diff self c | None => self end in
  if negb (all_have_vars new_self && all_have_vars ctx) then unmodelled else
  let vs := polytope_vars new_self ctx in
  red <- reduce_polytope O (map (term_to_row vs) new_self) (map (term_to_row vs) ctx) ;;
  ret (map (row_to_term vs) red).

(* ---------- emptiness ---------- *)
Definition is_polytope_empty (O : oracle) (m : nat) (rows : list row) : M bool :=
  match rows with
  | [] => ret false
  | _ => match O (mkLP (repeat 0 m) rows) with
         | LpInfeasible => ret true
         | LpOpt _ _ | LpUnbounded => ret false
         | LpOther _ => raise ValueErr
         | LpMiss => raise OracleMiss
         end
  end.
Definition poly_is_empty (O : oracle) (self : list pterm) : M bool :=
  if negb (all_have_vars self) then unmodelled else
  let vs := polytope_vars self [] in
  is_polytope_empty O (List.length vs) (map (term_to_row vs) self).

(* ---------- containment ---------- *)
(* b_temp + REFINEMENT_TOLERANCE * (1 + abs(b_temp)) : the constant is read from the source by the translator *)
Definition tol_bound (b : Q) : Q := qadd b (qmul REFINEMENT_TOLERANCE (qadd 1 (qabs b))).
Fixpoint containment_loop (O : oracle) (a_l a_r : list row) : M bool :=
  match a_r with
  | [] => ret true
  | (a, b) :: rest =>
      match O (mkLP (map qneg a) (a_l ++ [(a, qadd b 1)])) with
      | LpInfeasible => ret false
      | LpOpt f _ => if qle (qneg f) (tol_bound b) then containment_loop O a_l rest else ret false
      | LpUnbounded | LpOther _ => raise (Escape "TypeError")
      | LpMiss => raise OracleMiss
      end
  end.
Definition verify_polytope_containment (O : oracle) (m : nat) (a_l a_r : list row) : M bool :=
  el <- is_polytope_empty O m a_l ;;
  if el then ret true else
  er <- is_polytope_empty O m a_r ;;
  if er then ret false else
  containment_loop O a_l a_r.
(* PolyhedralTermList.refines *)
Definition poly_refines (O : oracle) (self other : list pterm) : M bool :=
  match other with
  | [] => ret true
  | _ => match self with
         | [] => ret false
         | _ => if negb (all_have_vars self && all_have_vars other) then unmodelled else
                let vs := polytope_vars self other in
                verify_polytope_containment O (List.length vs) (map (term_to_row vs) self) (map (term_to_row vs) other)
         end
  end.

(* ---------- optimize ---------- *)
(* PolyhedralTermList.optimize(objective, maximize) : Some v | None (unbounded) *)
Definition poly_optimize (O : oracle) (self : list pterm) (objective : pvars) (maximize : bool) : M (option Q) :=
  match self with [] => unmodelled | _ =>
  if negb (all_have_vars self) then unmodelled else
  let obj := mk_term objective 0 in
  let vs := polytope_vars self [obj] in
  let polarity := if maximize then -(1) else 1 in
  let c := map (fun q => qmul polarity q) (fst (term_to_row vs obj)) in
  match O (mkLP c (map (term_to_row vs) self)) with
  | LpUnbounded => ret None
  | LpOpt f _ => ret (Some (qmul polarity f))
  | LpInfeasible | LpOther _ => raise ValueErr
  | LpMiss => raise OracleMiss
  end end.

(* ---------- replay oracle: a finite table of recorded linprog calls ---------- *)
Definition q_close (tau : Q) (a b : Q) : bool :=
  Qle_bool (Qabs (a - b)) (tau * (1 + Qabs a)).
Fixpoint qs_close (tau : Q) (l1 l2 : list Q) : bool :=
  match l1, l2 with
  | [], [] => true
  | a :: r1, b :: r2 => q_close tau a b && qs_close tau r1 r2
  | _, _ => false
  end.
Fixpoint rows_close (tau : Q) (l1 l2 : list row) : bool :=
  match l1, l2 with
  | [], [] => true
  | (a1, b1) :: r1, (a2, b2) :: r2 => qs_close tau a1 a2 && q_close tau b1 b2 && rows_close tau r1 r2
  | _, _ => false
  end.
Definition lp_close (tau : Q) (p1 p2 : lp_problem) : bool :=
  qs_close tau (lp_obj p1) (lp_obj p2) && rows_close tau (lp_rows p1) (lp_rows p2).
Fixpoint table_oracle (tau : Q) (tbl : list (lp_problem * lp_answer)) (p : lp_problem) : lp_answer :=
  match tbl with
  | [] => LpMiss
  | (q, a) :: r => if lp_close tau q p then a else table_oracle tau r p
  end.
