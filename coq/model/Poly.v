(* Poly.v — hand-written executable model of the LP-based part of
   pacti.terms.polyhedra.polyhedra.PolyhedralTermList:
   termlist_to_polytope, polytope_to_termlist, reduce_polytope, simplify,
   verify_polytope_containment, is_polytope_empty, refines, is_empty, optimize.
   scipy.optimize.linprog is an ORACLE (a parameter O); the correspondence harness
   replays the answers the implementation obtained.  Definitions only. *)
From Coq Require Import List String Bool QArith Qabs ZArith.
Import ListNotations.
Require Import Py ListsGen ConstGen Sem Term.
Local Open Scope Q_scope.

(* ---------- the LP oracle ---------- *)
Definition row := (list Q * Q)%type.                           (* coefficients, bound :  a·x <= b *)
(* minimise obj·x, x free; lp_vars names the columns (dict insertion order is not observable in pacti,
   so the replay oracle matches recorded problems up to a permutation of the named columns) *)
Record lp_problem := mkLP { lp_vars : list var; lp_obj : list Q; lp_rows : list row }.
Inductive lp_answer :=
| LpOpt (fun_ : Q) (slack : list Q)      (* status 0 *)
| LpInfeasible                            (* status 2 *)
| LpUnbounded                             (* status 3 *)
| LpOther (status : Z)                    (* 1, 4: res.fun is None *)
| LpMiss.                                 (* replay table has no such call *)
Definition oracle := lp_problem -> lp_answer.

(* ---------- matrices ---------- *)
(* PolyhedralTerm.term_to_polytope *)
Definition term_to_row (vs : list var) (t : pterm) : row := (map (get_coefficient t) vs, tconst t).
Definition all_have_vars (ts : list pterm) : bool := forallb (fun t => nonempty (term_vars_p t)) ts.
(* variable order of termlist_to_polytope *)
Definition polytope_vars (terms ctx : list pterm) : list var := list_union (tl_vars terms) (tl_vars ctx).
(* PolyhedralTerm.polytope_to_term / polytope_to_termlist *)
Definition row_to_term (vs : list var) (r : row) : pterm := mk_term (combine vs (fst r)) (snd r).

(* A system over NO variable at all (every term is constant-only) makes the numpy shapes
   degenerate (m = 0); what the code does then is modelled case by case below. *)
(* ---------- reduce_polytope ---------- *)
(* the while-loop: `kept` are the rows before index i, `rest` the rows from i on *)
Fixpoint reduce_loop (O : oracle) (vs : list var) (kept rest ctx : list row) : M (list row) :=
  match rest with
  | [] => ret kept
  | (a, b) :: rest' =>
      let prob := mkLP vs (map qneg a) (kept ++ (a, qadd b 1) :: rest' ++ ctx) in
      match O prob with
      | LpUnbounded => reduce_loop O vs kept rest' ctx
      | LpOpt f _ => if qle (qneg f) b then reduce_loop O vs kept rest' ctx
                     else reduce_loop O vs (kept ++ [(a, b)]) rest' ctx
      | LpInfeasible => raise ValueErr
      | LpOther _ => reduce_loop O vs (kept ++ [(a, b)]) rest' ctx     (* status 1/4: neither branch fires, row kept *)
      | LpMiss => raise OracleMiss
      end
  end.
Definition reduce_polytope (O : oracle) (vs : list var) (rows ctx : list row) : M (list row) :=
  match rows with
  | [] => ret []
  | [r] => match ctx with [] => ret [r] | _ => reduce_loop O vs [] rows ctx end
  | _ => reduce_loop O vs [] rows ctx
  end.

(* ---------- simplify ---------- *)
Definition poly_simplify (O : oracle) (self : list pterm) (context : option (list pterm)) : M (list pterm) :=
  let ctx := opt_list context in
  let new_self := match context with Some c => list_diff self c | None => self end in
  let vs := polytope_vars new_self ctx in
  match vs with
  | [] =>
      (* m = 0: no variable anywhere.  Context rows are constant inequalities 0 <= c: a false one makes the system
         unsatisfiable (ValueError), the others are dropped (repo commit 12672f5; before it: AssertionError) *)
      if existsb (fun t => qlt (tconst t) 0) ctx then raise ValueErr else
      match new_self with
      | [] => ret []
      | [t] => ret [row_to_term vs (term_to_row vs t)]
      | _ => raise ValueErr                                (* linprog rejects the empty objective: ValueError *)
      end
  | _ =>
      red <- reduce_polytope O vs (map (term_to_row vs) new_self) (map (term_to_row vs) ctx) ;;
      ret (map (row_to_term vs) red)
  end.

(* ---------- emptiness ---------- *)
Definition is_polytope_empty (O : oracle) (vs : list var) (rows : list row) : M bool :=
  let m := List.length vs in
  match rows with
  | [] => ret false
  | _ => if Nat.eqb m 0 then ret false else      (* n * m == 0 *)
         match O (mkLP vs (repeat 0 m) rows) with
         | LpInfeasible => ret true
         | LpOpt _ _ | LpUnbounded => ret false
         | LpOther _ => raise ValueErr
         | LpMiss => raise OracleMiss
         end
  end.
Definition poly_is_empty (O : oracle) (self : list pterm) : M bool :=
  let vs := polytope_vars self [] in
  is_polytope_empty O vs (map (term_to_row vs) self).

(* ---------- containment ---------- *)
(* b_temp + REFINEMENT_TOLERANCE * (1 + abs(b_temp)) : the constant is read from the source by the translator *)
Definition tol_bound (b : Q) : Q := qadd b (qmul REFINEMENT_TOLERANCE (qadd 1 (qabs b))).
Fixpoint containment_loop (O : oracle) (vs : list var) (a_l a_r : list row) : M bool :=
  match a_r with
  | [] => ret true
  | (a, b) :: rest =>
      match O (mkLP vs (map qneg a) (a_l ++ [(a, qadd b 1)])) with
      | LpInfeasible => ret false
      | LpOpt f _ => if qle (qneg f) (tol_bound b) then containment_loop O vs a_l rest else ret false
      | LpUnbounded | LpOther _ => raise (Escape "TypeError")
      | LpMiss => raise OracleMiss
      end
  end.
Definition verify_polytope_containment (O : oracle) (vs : list var) (a_l a_r : list row) : M bool :=
  el <- is_polytope_empty O vs a_l ;;
  if el then ret true else
  er <- is_polytope_empty O vs a_r ;;
  if er then ret false else
  containment_loop O vs a_l a_r.
(* PolyhedralTermList.refines *)
Definition poly_refines (O : oracle) (self other : list pterm) : M bool :=
  match other with
  | [] => ret true
  | _ => match self with
         | [] => ret false
         | _ => let vs := polytope_vars self other in
                match vs with
                | [] => raise ValueErr                     (* m = 0: linprog rejects the empty objective *)
                | _ => verify_polytope_containment O vs (map (term_to_row vs) self) (map (term_to_row vs) other)
                end
         end
  end.

(* ---------- optimize ---------- *)
(* PolyhedralTermList.optimize(objective, maximize) : Some v | None (unbounded) *)
Definition poly_optimize (O : oracle) (self : list pterm) (objective : pvars) (maximize : bool) : M (option Q) :=
  match self with [] => raise ValueErr | _ =>      (* linprog rejects a 1-D empty A_ub: ValueError *)
  let obj := mk_term objective 0 in
  let vs := polytope_vars self [obj] in
  match vs with [] => raise ValueErr | _ =>
  let polarity := if maximize then -(1) else 1 in
  let c := map (fun q => qmul polarity q) (fst (term_to_row vs obj)) in
  match O (mkLP vs c (map (term_to_row vs) self)) with
  | LpUnbounded => ret None
  | LpOpt f _ => ret (Some (qmul polarity f))
  | LpInfeasible =>
      (* status 2 may also mean "unbounded": decide emptiness separately (self.is_empty()) *)
      e <- poly_is_empty O self ;; if e then raise ValueErr else ret None
  | LpOther _ => raise ValueErr
  | LpMiss => raise OracleMiss
  end end end.

(* ---------- replay oracle: a finite table of recorded linprog calls ---------- *)
Definition q_close (tau : Q) (a b : Q) : bool :=
  Qle_bool (Qabs (a - b)) (tau * (1 + Qabs a)).
Fixpoint qs_close (tau : Q) (l1 l2 : list Q) : bool :=
  match l1, l2 with
  | [], [] => true
  | a :: r1, b :: r2 => q_close tau a b && qs_close tau r1 r2
  | _, _ => false
  end.
Fixpoint rows_close (tau : Q) (l1 l2 : list row) : bool :=
  match l1, l2 with
  | [], [] => true
  | (a1, b1) :: r1, (a2, b2) :: r2 => qs_close tau a1 a2 && q_close tau b1 b2 && rows_close tau r1 r2
  | _, _ => false
  end.
(* column j of the recorded problem, looked up by name, for each name of the query *)
Fixpoint index_of (v : var) (l : list var) (n : nat) : option nat :=
  match l with [] => None | x :: r => if String.eqb x v then Some n else index_of v r (S n) end.
Definition permute (from to : list var) (xs : list Q) : option (list Q) :=
  fold_right (fun v acc => match acc, index_of v from 0 with
                           | Some l, Some i => Some (nth i xs 0 :: l) | _, _ => None end) (Some []) to.
Definition permute_rows (from to : list var) (rs : list row) : option (list row) :=
  fold_right (fun r acc => match acc, permute from to (fst r) with
                           | Some l, Some a => Some ((a, snd r) :: l) | _, _ => None end) (Some []) rs.
Definition lp_close (tau : Q) (p1 p2 : lp_problem) : bool :=
  Nat.eqb (List.length (lp_vars p1)) (List.length (lp_vars p2)) &&
  match permute (lp_vars p1) (lp_vars p2) (lp_obj p1), permute_rows (lp_vars p1) (lp_vars p2) (lp_rows p1) with
  | Some o1, Some r1 => qs_close tau o1 (lp_obj p2) && rows_close tau r1 (lp_rows p2)
  | _, _ => false
  end.
Fixpoint table_oracle (tau : Q) (tbl : list (lp_problem * lp_answer)) (p : lp_problem) : lp_answer :=
  match tbl with
  | [] => LpMiss
  | (q, a) :: r => if lp_close tau q p then a else table_oracle tau r p
  end.
