(* JsonCompound.v — hand-written executable model of the DICTIONARY FORM of compound contracts:
     pacti/contracts/polyhedral_iocontract.py : PolyhedralIoContractCompound.to_dict / from_strings
   (the human-readable form fileio.write_contracts_to_file puts under "data" of a "PolyhedralIoContractCompound"
   entry, and what fileio.read_contracts_from_file hands, unvalidated, to from_strings as keyword arguments).
   Definitions only; the equality with the translated source is proofs/JsonGenCompound.v, the facts are
   proofs/JsonCompoundFacts.v, the statements props/C10.v.

   A compound contract is the record [compound] of model/Compound.v: two lists of ALTERNATIVES (term lists read as
   a disjunction) and the interface.  The dictionary carries one list of strings per alternative, in order, for
   the assumptions and for the guarantees separately.

   Parameters (as in model/Json.v): the string printer [to_str_list] (model/Printer.v), the string parser applied to
   a value of unknown type [parse_j] (model/ParseAll.v on a str), str(x) of a non-str [pstr], and the two constructors
   NestedPolyhedra(l, force) / PolyhedralIoContractCompound(...) ([Compound.nested_init O] / [Compound.compound_init O]
   once the LP oracle is fixed). *)
From Coq Require Import List String Bool QArith.
Import ListNotations.
Require Import Py Sem Term Compound Json Syntax.
Local Open Scope string_scope.

(* ------------------------------------------------------------------ *)
(** * to_dict *)
Section ToDict.
Context (to_str_list : list pterm -> list string).

(* one alternative: the list of its printed strings *)
Definition alt_to_json (alt : list pterm) : json := JList (map JStr (to_str_list alt)).
(* one side (assumptions or guarantees): one string list per alternative, in order *)
Definition side_to_json (alts : nested) : json := JList (map alt_to_json alts).

Definition compound_to_dict (k : compound) : json :=
  JObj [("input_vars", JList (map JStr (k_inputvars k)));
        ("output_vars", JList (map JStr (k_outputvars k)));
        ("assumptions", side_to_json (k_a k));
        ("guarantees", side_to_json (k_g k))].

(* fileio.write_contracts_to_file, one compound entry (string representation) *)
Definition write_entry_compound (name : string) (k : compound) : json :=
  JObj [("name", JStr name); ("type", JStr T_COMPOUND); ("data", compound_to_dict k)].
End ToDict.

(* what a reader that trusts the shape sees in one side of the dictionary: the string lists, alternative by
   alternative (used to STATE that nothing is lost, added, merged or reordered) *)
Definition side_strings (j : json) : list (list string) :=
  match j with JList l => map strs_of l | _ => [] end.

(* ------------------------------------------------------------------ *)
(** * from_strings *)
Section FromStrings.
Context (pstr : json -> string).
Context (parse_j : json -> M (list pterm)).
Context (nested_new : nested -> bool -> M nested).
Context (compound_new : nested -> nested -> list var -> list var -> M compound).

(* [item for x in termlist_str for item in serializer.polyhedral_termlist_from_string(x)] *)
Definition read_alt (termlist_str : json) : M (list pterm) :=
  xs <- py_iter termlist_str ;; concat_mapM parse_j xs.

(* a = []; if side: for termlist_str in side: a.append(PolyhedralTermList(...)) *)
Definition read_side (side : json) : M nested :=
  if py_truth side then alts <- py_iter side ;; Json.mapM read_alt alts else ret [].

(* both loops, then the keyword arguments of the constructor call in source order: input_vars, output_vars,
   assumptions=NestedPolyhedra(a, True), guarantees=NestedPolyhedra(g, False) *)
Definition compound_from_strings (assumptions guarantees input_vars output_vars : json) : M compound :=
  a <- read_side assumptions ;;
  g <- read_side guarantees ;;
  i <- py_iter input_vars ;;
  o <- py_iter output_vars ;;
  na <- nested_new a true ;;
  ng <- nested_new g false ;;
  compound_new na ng (map (py_var pstr) i) (map (py_var pstr) o).

(* from_strings of the unpacked dictionary d: what fileio.read_contracts_from_file does with the "data" of a compound entry *)
Definition compound_from_dict (d : json) : M compound :=
  _ <- bind_kwargs contract_keywords [] d ;;
  compound_from_strings (jget_or_null "assumptions" d) (jget_or_null "guarantees" d)
                        (jget_or_null "input_vars" d) (jget_or_null "output_vars" d).

(* the [loaded] value the file reader of model/Json.v returns for a compound entry, handed to from_strings *)
Definition build_loaded_compound (l : loaded) : option (M compound) :=
  match l with
  | LCompound ja jg ji jo => Some (compound_from_strings ja jg ji jo)
  | _ => None
  end.
End FromStrings.

(* the parser on a value of unknown type, given the parser on strings: pyparsing's parse_string raises AttributeError
   on a non-str ('int' object has no attribute 'expandtabs'; checked on /repo/src for None, bool, int, float, list,
   dict).  Used for evaluation and in the instantiated round trip; the generic theorems quantify over parse_j. *)
Definition parse_json_with (parse_s : string -> M (list pterm)) (j : json) : M (list pterm) :=
  match j with JStr s => parse_s s | _ => raise (Escape "AttributeError") end.
