(* Ast.v — the surface syntax of pacti's constraint grammar
   (pacti/terms/polyhedra/syntax/grammar.py), one constructor per grammar alternative / parse action,
   and its ordinary real-arithmetic meaning.  Shared by model/Grammar.v (string -> ast),
   model/Syntax.v (ast -> polyhedral terms, the folding parse actions of data.py/serializer.py)
   and model/Printer.v.  Definitions only. *)
From Coq Require Import List String Bool QArith Reals Qreals.
Import ListNotations.
Require Import Py Sem.

Inductive sign := Plus | Minus.

(* constant arithmetic: floating_point_number | paren_arith_expr (infix notation * / + -) *)
Inductive cexpr :=
| CNum (q : Q)                       (* a literal; q = the value of float(literal) *)
| CAdd (l r : cexpr) | CSub (l r : cexpr) | CMul (l r : cexpr) | CDiv (l r : cexpr).

(* term := only_variable | number_and_variable | only_number, each possibly over paren_terms *)
Inductive lterm :=
| TVar (v : var)                                  (* variable *)
| TNumVar (k : cexpr) (v : var)                   (* number [*] variable *)
| TNum (k : cexpr)                                (* number *)
| TParen (ts : lterms)                            (* ( terms ) *)
| TNumParen (k : cexpr) (ts : lterms)             (* number [*] ( terms ) *)
with lterms :=
| Terms (first_sign : sign) (first : lterm) (rest : list (sign * lterm)).   (* first_term signed_term* *)

(* an element of abs_or_terms *)
Inductive aterm :=
| ATerm (s : sign) (t : lterm)                                (* first_term / signed_term *)
| AAbs (s : sign) (k : option cexpr) (body : lterms).         (* [sign] [number [*]] | terms | *)

(* an element of multi_paren_abs_or_terms *)
Inductive pitem :=
| PGroup (s : sign) (k : option cexpr) (items : list aterm)   (* [sign] [number [*]] ( abs_or_terms ) *)
| PPlain (a : aterm).                                         (* first_abs_or_term / addl_abs_or_term *)
Definition side := list pitem.

Inductive expr :=
| EEq (l r : lterms)                 (* terms (== | =) terms *)
| ELeq (sides : list side)           (* side (<= side)+ *)
| EGeq (sides : list side).          (* side (>= side)+ *)

(* ---------- meaning under ordinary real arithmetic ---------- *)
Local Open Scope R_scope.
Definition sgn (s : sign) : R := match s with Plus => 1 | Minus => -1 end.
Fixpoint cval (c : cexpr) : R :=
  match c with
  | CNum q => Q2R q
  | CAdd l r => cval l + cval r | CSub l r => cval l - cval r
  | CMul l r => cval l * cval r | CDiv l r => cval l / cval r
  end.
Fixpoint tval (rho : val) (t : lterm) : R :=
  match t with
  | TVar v => rho v
  | TNumVar k v => cval k * rho v
  | TNum k => cval k
  | TParen ts => tsval rho ts
  | TNumParen k ts => cval k * tsval rho ts
  end
with tsval (rho : val) (ts : lterms) : R :=
  match ts with
  | Terms s t rest =>
      sgn s * tval rho t +
      (fix go (l : list (sign * lterm)) : R :=
         match l with [] => 0 | (s', t') :: r => sgn s' * tval rho t' + go r end) rest
  end.
Definition kval (k : option cexpr) : R := match k with Some c => cval c | None => 1 end.
Definition aval (rho : val) (a : aterm) : R :=
  match a with
  | ATerm s t => sgn s * tval rho t
  | AAbs s k body => sgn s * kval k * Rabs (tsval rho body)
  end.
Definition sum_aval (rho : val) (l : list aterm) : R := fold_right (fun a acc => aval rho a + acc) 0 l.
Definition pval (rho : val) (p : pitem) : R :=
  match p with
  | PGroup s k items => sgn s * kval k * sum_aval rho items
  | PPlain a => aval rho a
  end.
Definition sideval (rho : val) (sd : side) : R := fold_right (fun p acc => pval rho p + acc) 0 sd.
(* chained relation: every adjacent pair *)
Fixpoint chain (rel : R -> R -> Prop) (l : list R) : Prop :=
  match l with
  | a :: ((b :: _) as r) => rel a b /\ chain rel r
  | _ => True
  end.
Definition eden (rho : val) (e : expr) : Prop :=
  match e with
  | EEq l r => tsval rho l = tsval rho r
  | ELeq sides => chain Rle (map (sideval rho) sides)
  | EGeq sides => chain Rge (map (sideval rho) sides)
  end.
