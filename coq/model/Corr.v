(* Corr.v — comparison functions used by the generated correspondence cases: the harness embeds
   the implementation's observed result; these functions run the model and compare, so that Coq
   prints only the indices of disagreeing cases.  tau = 0 means exact agreement. *)
From Coq Require Import List String Bool QArith Qabs ZArith.
Import ListNotations.
Require Import Py ListsGen Sem Term Poly Tactics.
Local Open Scope Q_scope.

Definition coef_close (tau : Q) (t1 t2 : pterm) (v : var) : bool :=
  q_close tau (get_coefficient t1 v) (get_coefficient t2 v).
(* same coefficient function and constant (dict order is not observable through ==) *)
Definition term_close (tau : Q) (t1 t2 : pterm) : bool :=
  forallb (coef_close tau t1 t2) (list_union (term_vars_p t1) (term_vars_p t2))
  && q_close tau (tconst t1) (tconst t2)
  && (if Qeq_bool tau 0 then keys_equal (tvars t1) (tvars t2) else true).
Fixpoint terms_close (tau : Q) (l1 l2 : list pterm) : bool :=
  match l1, l2 with
  | [], [] => true
  | a :: r1, b :: r2 => term_close tau a b && terms_close tau r1 r2
  | _, _ => false
  end.
Definition err_code (e : err) : nat :=
  match e with
  | IncompatibleArgs => 1 | ValueErr => 2 | SyntaxErr => 3 | ConvexErr => 4 | FormatErr => 5
  | Escape _ => 6 | OracleMiss => 7
  end.

Inductive expected (A : Type) := Exp (a : A) | ExpErr (code : nat).
Arguments Exp {A} a. Arguments ExpErr {A} code.

Definition agree {A} (eqb : A -> A -> bool) (r : M A) (e : expected A) : bool :=
  match r, e with
  | inl a, Exp b => eqb a b
  | inr x, ExpErr code => Nat.eqb (err_code x) code
  | _, _ => false
  end.
Definition stats_eqb (s1 s2 : stats) : bool :=
  list_eqb (A:=nat) (map (fun p => Z.to_nat (fst p + 1)) s1) (map (fun p => Z.to_nat (fst p + 1)) s2).
Definition opt_close (tau : Q) (a b : option Q) : bool :=
  match a, b with Some x, Some y => q_close tau x y | None, None => true | _, _ => false end.

Fixpoint falses (n : nat) (l : list bool) : list nat :=
  match l with [] => [] | b :: r => (if b then [] else [n]) ++ falses (S n) r end.

(* one entry per operation of the polyhedral layer *)
Definition c_simplify tau tbl ts ctx (e : expected (list pterm)) : bool :=
  agree (terms_close tau) (poly_simplify (table_oracle tau tbl) ts ctx) e.
Definition c_refines tau tbl a b (e : expected bool) : bool :=
  agree Bool.eqb (poly_refines (table_oracle tau tbl) a b) e.
Definition c_is_empty tau tbl ts (e : expected bool) : bool :=
  agree Bool.eqb (poly_is_empty (table_oracle tau tbl) ts) e.
Definition c_optimize tau tbl ts obj mx (e : expected (option Q)) : bool :=
  agree (opt_close (if Qeq_bool tau 0 then 0 else tau)) (poly_optimize (table_oracle tau tbl) ts obj mx) e.
Definition c_contains ts b (e : expected bool) : bool :=
  agree Bool.eqb (contains_behavior ts b) e.
Definition elim_eqb tau (r1 r2 : list pterm * stats) : bool :=
  terms_close tau (fst r1) (fst r2) && stats_eqb (snd r1) (snd r2).
Definition c_refine tau tbl ts ctx vs sp od (e : expected (list pterm * stats)) : bool :=
  agree (elim_eqb tau) (elim_vars_by_refining (table_oracle tau tbl) ts ctx vs sp od) e.
Definition c_relax tau tbl ts ctx vs sp od (e : expected (list pterm * stats)) : bool :=
  agree (elim_eqb tau) (elim_vars_by_relaxing (table_oracle tau tbl) ts ctx vs sp od) e.
