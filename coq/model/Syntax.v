(* Syntax.v — hand-written executable model of the folding half of pacti's constraint parser:
     pacti/terms/polyhedra/syntax/data.py      (the PolyhedralSyntax* data classes)
     pacti/terms/polyhedra/syntax/grammar.py   (the parse ACTIONS _parse_*, not the pyparsing engine)
     pacti/terms/polyhedra/serializer.py       (_expression_to_polyhedral_terms and helpers)
   Input: the surface syntax tree of model/Ast.v (one constructor per grammar alternative).
   Output: what polyhedral_termlist_from_string returns for a string with that parse tree
   ([fold_expr]), order of terms and of dictionary keys included.
   Numbers are exact rationals (a float literal is the rational it denotes, arithmetic exact);
   consequently there is no signed zero: Python's repr distinguishes "0.0x" from "-0.0x" at the
   head of an absolute body, the model does not (harness/syntax_cases.py skips those inputs).
   Each definition names the Python it mirrors.  Definitions only; facts are in
   proofs/SyntaxFacts.v.  Tie to the code: harness/syntax_cases.py (selftest) runs both on the
   same random syntax trees. *)
From Coq Require Import List String Bool QArith Qabs ZArith.
Import ListNotations.
Require Import Py ListsGen Sem Term Ast.
Local Open Scope string_scope.
Local Open Scope Q_scope.
Local Open Scope list_scope.

(* ================================================================== *)
(** * data.py : PolyhedralSyntaxTermList *)
(* constant + dict var -> factor (insertion order kept).  Meaning: Σ factors + constant. *)
Record stl := mkSTL { sconst : Q; sfactors : pvars }.

(* PolyhedralSyntaxTermList(constant=0, factors={}) *)
Definition stl_zero : stl := mkSTL 0 [].

(* .negate *)
Definition stl_negate (t : stl) : stl :=
  mkSTL (qneg (sconst t)) (map (fun p => (fst p, qneg (snd p))) (sfactors t)).

(* one iteration of the loop of .add:
     if f in fs: fs[f] += v; pop f when the sum prints as "0.0" or "-0.0"
     else:       fs[f] = v           (appended, even when v is zero) *)
Definition add_factor (fs : pvars) (p : var * Q) : pvars :=
  match assoc (fst p) fs with
  | Some q => let s := qadd q (snd p) in
              if qzero s then dict_pop fs (fst p) else dict_set fs (fst p) s
  | None => dict_set fs (fst p) (snd p)
  end.
(* .add *)
Definition stl_add (a b : stl) : stl :=
  mkSTL (qadd (sconst a) (sconst b)) (fold_left add_factor (sfactors b) (sfactors a)).

(* grammar.py: pt.constant *= f; pt.factors[k] *= f   (_parse_factor_paren_terms,
   _parse_paren_abs_or_terms) *)
Definition stl_scale (f : Q) (t : stl) : stl :=
  mkSTL (qmul (sconst t) f) (map (fun p => (fst p, qmul (snd p) f)) (sfactors t)).
(* grammar.py: only the factors are scaled (_parse_number_and_variable) *)
Definition stl_scale_factors (f : Q) (t : stl) : stl :=
  mkSTL (sconst t) (map (fun p => (fst p, qmul (snd p) f)) (sfactors t)).

(* .to_polyhedral_term : PolyhedralTerm(variables=factors, constant=-constant);
   PolyhedralTerm.__init__ drops zero coefficients (mk_term) *)
Definition stl_to_pterm (t : stl) : pterm := mk_term (sfactors t) (qneg (sconst t)).

(* .is_positive : sorted(self.factors)[0] raises IndexError on an empty dict *)
Definition stl_is_positive (t : stl) : M bool :=
  if qlt 0 (sconst t) then ret true
  else if qlt (sconst t) 0 then ret false
  else match sort_by_name (sfactors t) with
       | [] => raise (Escape "IndexError")
       | (_, q) :: _ => ret (qlt 0 q)
       end.

(* .__repr__ : the string is an injective function (signed zero aside) of the factors sorted by
   variable name with their values, and the constant.  Equality of the strings = equality of
   these canonical forms, values compared as numbers. *)
Definition stl_canon (t : stl) : pvars * Q := (sort_by_name (sfactors t), sconst t).
Fixpoint factors_eqb (l1 l2 : pvars) : bool :=
  match l1, l2 with
  | [], [] => true
  | (k1, q1) :: r1, (k2, q2) :: r2 => String.eqb k1 k2 && Qeq_bool q1 q2 && factors_eqb r1 r2
  | _, _ => false
  end.
Definition same_body (a b : stl) : bool :=
  factors_eqb (fst (stl_canon a)) (fst (stl_canon b)) && Qeq_bool (sconst a) (sconst b).

(* ================================================================== *)
(** * data.py : PolyhedralSyntaxAbsoluteTerm *)
Record sabs := mkAbs { abody : stl; acoef : option Q }.   (* coefficient None means 1 *)

(* .is_positive *)
Definition abs_is_positive (a : sabs) : bool :=
  match acoef a with None => true | Some c => qlt 0 c end.
(* .negate : the body is kept *)
Definition abs_negate (a : sabs) : sabs :=
  mkAbs (abody a) (Some (match acoef a with None => (-1 # 1) | Some c => qmul c (-1 # 1) end)).
(* .same_term_list : f"{self.term_list}" == f"{other.term_list}" *)
Definition same_term_list (a b : sabs) : bool := same_body (abody a) (abody b).
(* .to_term_list *)
Definition abs_to_term_list (a : sabs) : stl :=
  let m := match acoef a with None => 1 | Some c => c end in
  mkSTL (qmul m (sconst (abody a))) (map (fun p => (fst p, qmul m (snd p))) (sfactors (abody a))).

(* _combine_optional_floats   (after the fix: (None, None) -> 2.0) *)
Definition combine_optional_floats (f1 f2 : option Q) : option Q :=
  Some (match f1, f2 with
        | None, None => 2
        | None, Some b => qadd b 1
        | Some a, None => qadd a 1
        | Some a, Some b => qadd a b
        end).

(* _combine_or_append : every entry with the same body is replaced by the combined entry;
   the term is appended when there was none *)
Definition combine_or_append (atl : list sabs) (term : sabs) : list sabs :=
  let r := map (fun a => if same_term_list a term
                         then mkAbs (abody a) (combine_optional_floats (acoef a) (acoef term))
                         else a) atl in
  if existsb (fun a => same_term_list a term) atl then r else r ++ [term].

(* itertools.product([True, False], repeat=n) : first position varies slowest *)
Fixpoint sign_vectors (n : nat) : list (list bool) :=
  match n with
  | O => [[]]
  | S k => map (cons true) (sign_vectors k) ++ map (cons false) (sign_vectors k)
  end.
Definition abs_signed (positive : bool) (a : sabs) : stl :=
  if positive then abs_to_term_list a else abs_to_term_list (abs_negate a).
(* the inner loop of _generate_absolute_term_combinations *)
Fixpoint combination (signs : list bool) (atl : list sabs) (c : stl) : stl :=
  match signs, atl with
  | s :: ss, a :: r => combination ss r (stl_add c (abs_signed s a))
  | _, _ => c
  end.
(* _generate_absolute_term_combinations *)
Definition generate_absolute_term_combinations (atl : list sabs) : list stl :=
  map (fun signs => combination signs atl stl_zero) (sign_vectors (List.length atl)).

(* ================================================================== *)
(** * data.py : PolyhedralSyntaxAbsoluteTermList *)
Record satl := mkATL { aterms : stl; aabs : list sabs }.
Definition satl_zero : satl := mkATL stl_zero [].

(* .expand *)
Definition satl_expand (a : satl) : list stl :=
  match aabs a with
  | [] => [aterms a]
  | _ => map (fun tl => stl_add (aterms a) tl) (generate_absolute_term_combinations (aabs a))
  end.
(* .negate *)
Definition satl_negate (a : satl) : satl := mkATL (stl_negate (aterms a)) (map abs_negate (aabs a)).
(* .add *)
Definition satl_add (a b : satl) : satl :=
  mkATL (stl_add (aterms a) (aterms b)) (fold_left combine_or_append (aabs b) (aabs a)).
(* .is_constant *)
Definition satl_is_constant (a : satl) : bool :=
  match aabs a, sfactors (aterms a) with [], [] => true | _, _ => false end.
(* grammar.py _parse_paren_abs_or_terms with a factor: the term_list is scaled, every absolute
   coefficient is multiplied by f (None becomes f) *)
Definition satl_scale (f : Q) (a : satl) : satl :=
  mkATL (stl_scale f (aterms a))
        (map (fun t => mkAbs (abody t) (Some (match acoef t with None => f | Some c => qmul c f end)))
             (aabs a)).

(* the expression classes *)
Inductive sop := OpLeq | OpGeq.
Inductive sexpr :=
| SEql (lhs rhs : stl)                    (* PolyhedralSyntaxEqlExpression *)
| SIneq (op : sop) (sides : list satl).   (* PolyhedralSyntaxIneqExpression *)

(* ================================================================== *)
(** * grammar.py : the parse actions, as a fold over the syntax tree *)

(* arithmetic_expr / paren_arith_expr : float arithmetic, read exactly *)
Fixpoint ceval (c : cexpr) : M Q :=
  match c with
  | CNum q => ret q
  | CAdd l r => a <- ceval l ;; b <- ceval r ;; ret (qadd a b)
  | CSub l r => a <- ceval l ;; b <- ceval r ;; ret (qsub a b)
  | CMul l r => a <- ceval l ;; b <- ceval r ;; ret (qmul a b)
  | CDiv l r => a <- ceval l ;; b <- ceval r ;;
                if qzero b then raise (Escape "ZeroDivisionError") else ret (qdiv a b)
  end.

(* _parse_first_term / _parse_signed_term : "-" negates *)
Definition apply_sign (s : sign) (t : stl) : stl :=
  match s with Plus => t | Minus => stl_negate t end.

(* the tail of reduce(PolyhedralSyntaxTermList.add, group, ...) in _parse_term_list *)
Definition fold_signed (f : lterm -> M stl) : list (sign * lterm) -> stl -> M stl :=
  fix go (l : list (sign * lterm)) (acc : stl) : M stl :=
    match l with
    | [] => ret acc
    | (s, t) :: r => y <- f t ;; go r (stl_add acc (apply_sign s y))
    end.

Fixpoint fold_lterm (t : lterm) : M stl :=
  match t with
  | TVar v => ret (mkSTL 0 [(v, 1)])                                      (* _parse_only_variable *)
  | TNumVar k v => n <- ceval k ;; ret (stl_scale_factors n (mkSTL 0 [(v, 1)]))  (* _parse_number_and_variable *)
  | TNum k => n <- ceval k ;; ret (mkSTL n [])                             (* _parse_term on a float *)
  | TParen ts => fold_lterms ts                                            (* _parse_paren_terms *)
  | TNumParen k ts => n <- ceval k ;; p <- fold_lterms ts ;; ret (stl_scale n p)  (* _parse_factor_paren_terms *)
  end
with fold_lterms (ts : lterms) : M stl :=                                  (* _parse_term_list *)
  match ts with
  | Terms s t rest =>
      x <- fold_lterm t ;;
      fold_signed fold_lterm rest (stl_add stl_zero (apply_sign s x))
  end.

(* PolyhedralSyntaxAbsoluteTermOrTerm *)
Inductive aot := OT (t : stl) | OA (a : sabs).

(* first_term/signed_term, or abs_term under _parse_first_abs_term/_parse_signed_abs_term *)
Definition fold_aterm (a : aterm) : M aot :=
  match a with
  | ATerm s t => x <- fold_lterm t ;; ret (OT (apply_sign s x))
  | AAbs s k body =>
      c <- match k with None => ret None | Some e => n <- ceval e ;; ret (Some n) end ;;
      b <- fold_lterms body ;;
      let at_ := mkAbs b c in                                              (* _parse_absolute_term *)
      ret (OA (match s with Plus => at_ | Minus => abs_negate at_ end))
  end.

(* one iteration of the loop of _parse_abs_or_terms *)
Definition atl_push (acc : satl) (x : aot) : satl :=
  match x with
  | OT t => mkATL (stl_add (aterms acc) t) (aabs acc)
  | OA a => mkATL (aterms acc) (combine_or_append (aabs acc) a)
  end.
Fixpoint mapM {A B} (f : A -> M B) (l : list A) : M (list B) :=
  match l with
  | [] => ret []
  | x :: r => y <- f x ;; ys <- mapM f r ;; ret (y :: ys)
  end.
(* _parse_abs_or_terms *)
Definition fold_abs_or_terms (items : list aterm) : M satl :=
  xs <- mapM fold_aterm items ;; ret (fold_left atl_push xs satl_zero).

(* _parse_paren_abs_or_terms then _parse_first_or_addl_paren_abs_or_terms *)
Definition fold_pitem (p : pitem) : M satl :=
  match p with
  | PGroup s k items =>
      f <- match k with None => ret None | Some e => n <- ceval e ;; ret (Some n) end ;;
      a <- fold_abs_or_terms items ;;
      let a1 := match f with None => a | Some n => satl_scale n a end in
      let a2 := match s with Plus => a1 | Minus => satl_negate a1 end in
      ret (satl_add satl_zero a2)
  | PPlain a =>
      x <- fold_aterm a ;;
      ret (match x with
           | OT t => mkATL (stl_add stl_zero t) []
           | OA t => mkATL stl_zero (combine_or_append [] t)
           end)
  end.

(* _parse_multi_paren_abs_or_terms *)
Definition fold_side (sd : side) : M satl :=
  xs <- mapM fold_pitem sd ;; ret (fold_left satl_add xs satl_zero).

(* _parse_equality_expression / _parse_leq_expression / _parse_geq_expression *)
Definition parse_expr (e : expr) : M sexpr :=
  match e with
  | EEq l r => a <- fold_lterms l ;; b <- fold_lterms r ;; ret (SEql a b)
  | ELeq sides => xs <- mapM fold_side sides ;; ret (SIneq OpLeq xs)
  | EGeq sides => xs <- mapM fold_side sides ;; ret (SIneq OpGeq xs)
  end.

(* ================================================================== *)
(** * serializer.py *)

(* _eql_expression_to_polyhedral_terms *)
Definition eql_expression_to_polyhedral_terms (lhs rhs : stl) : list pterm :=
  [stl_to_pterm (stl_add lhs (stl_negate rhs)); stl_to_pterm (stl_add rhs (stl_negate lhs))].

(* _check_absolute_terms *)
Definition check_absolute_terms (atl : list sabs) : M unit :=
  if forallb abs_is_positive atl then ret tt else raise ConvexErr.

(* zip(e.sides, e.sides[1:]) *)
Fixpoint adjacent {A} (l : list A) : list (A * A) :=
  match l with
  | a :: ((b :: _) as r) => (a, b) :: adjacent r
  | _ => []
  end.

(* a <= b is  a.add(b.negate());   a >= b is  a.negate().add(b) *)
Definition pair_difference (op : sop) (ab : satl * satl) : satl :=
  match op with
  | OpLeq => satl_add (fst ab) (satl_negate (snd ab))
  | OpGeq => satl_add (satl_negate (fst ab)) (snd ab)
  end.
(* the body of the loop of _leq/_geq_expression_to_polyhedral_terms *)
Definition pair_terms (op : sop) (ab : satl * satl) : M (list pterm) :=
  let d := pair_difference op ab in
  _ <- check_absolute_terms (aabs d) ;;
  ret (map stl_to_pterm (satl_expand d)).
Fixpoint concat_mapM {A B} (f : A -> M (list B)) (l : list A) : M (list B) :=
  match l with
  | [] => ret []
  | x :: r => ys <- f x ;; zs <- concat_mapM f r ;; ret (ys ++ zs)
  end.
(* _leq_expression_to_polyhedral_terms / _geq_expression_to_polyhedral_terms *)
Definition ineq_expression_to_polyhedral_terms (op : sop) (sides : list satl) : M (list pterm) :=
  if (List.length sides <? 2)%nat then raise (Escape "AssertionError")
  else concat_mapM (pair_terms op) (adjacent sides).

(* _expression_to_polyhedral_terms *)
Definition expression_to_polyhedral_terms (e : sexpr) : M (list pterm) :=
  match e with
  | SEql l r => ret (eql_expression_to_polyhedral_terms l r)
  | SIneq op sides => ineq_expression_to_polyhedral_terms op sides
  end.

(* polyhedral_termlist_from_string on a string whose parse tree is e *)
Definition fold_expr (e : expr) : M (list pterm) :=
  se <- parse_expr e ;; expression_to_polyhedral_terms se.
