(* Compound.v — hand-written executable model of pacti/iocontract/compundiocontract.py
   (NestedTermList, IoContractCompound) instantiated with polyhedral term lists
   (NestedPolyhedra / PolyhedralIoContractCompound of pacti/contracts/polyhedral_iocontract.py).
   A NestedTermList is a list of alternatives (term lists), read as their DISJUNCTION.
   scipy's linprog is the oracle parameter O of model/Poly.v.  Definitions only; facts are in
   proofs/CompoundFacts.v.  Tie to the code: harness/compound_cases.py replays the recorded LP
   answers through these definitions and compares outcomes. *)
From Coq Require Import List String Bool QArith ZArith.
Import ListNotations.
Require Import Py ListsGen Sem Term Poly.

Definition nested := list (list pterm).

(* TermList.copy : type(self)([term.copy() for term in self.terms]) *)
Definition tl_copy (ts : list pterm) : list pterm := map term_copy ts.
(* TermList.__or__ : type(self)(list_union(self.copy().terms, other.copy().terms)); `in` uses PolyhedralTerm.__eq__ *)
Definition tl_or (a b : list pterm) : list pterm := list_union (tl_copy a) (tl_copy b).

(* ---------- NestedTermList.__init__ ---------- *)
(* inner loop: for j, tlj in enumerate(nested_termlist): if j > i: ... *)
Fixpoint check_against (O : oracle) (tli : list pterm) (rest : nested) : M unit :=
  match rest with
  | [] => ret tt
  | tlj :: r =>
      e <- poly_is_empty O (tl_or tli tlj) ;;
      if e then check_against O tli r else raise ValueErr     (* "Terms ... have nonempty intersection" *)
  end.
(* outer loop: for i, tli in enumerate(nested_termlist) *)
Fixpoint check_disjoint (O : oracle) (alts : nested) : M unit :=
  match alts with
  | [] => ret tt
  | tli :: r => _ <- check_against O tli r ;; check_disjoint O r
  end.
Definition nested_init (O : oracle) (alts : nested) (force_empty_intersection : bool) : M nested :=
  _ <- (if force_empty_intersection then check_disjoint O alts else ret tt) ;;
  ret (map tl_copy alts).

(* .copy(force) : type(self)([tl.copy() for tl in self.nested_termlist], force) *)
Definition nested_copy (O : oracle) (a : nested) (force : bool) : M nested :=
  nested_init O (map tl_copy a) force.

(* ---------- __le__ / __eq__ ---------- *)
(* for that_tl in other: if this_tl <= that_tl: found = True; break *)
Fixpoint find_refined (O : oracle) (this : list pterm) (others : nested) : M bool :=
  match others with
  | [] => ret false
  | that :: r => x <- poly_refines O this that ;; if x then ret true else find_refined O this r
  end.
Fixpoint nested_le (O : oracle) (a b : nested) : M bool :=
  match a with
  | [] => ret true
  | this :: r => found <- find_refined O this b ;; if found then nested_le O r b else ret false
  end.
(* self <= other <= self : chained comparison, short-circuit *)
Definition nested_eqb (O : oracle) (a b : nested) : M bool :=
  x <- nested_le O a b ;; if x then nested_le O b a else ret false.

(* ---------- simplify ---------- *)
(* try: new_tl = self_tl.simplify(context_tl)  except ValueError: ...; continue  (nothing appended) *)
Fixpoint simplify_row (O : oracle) (self_tl : list pterm) (ctxs : nested) : M nested :=
  match ctxs with
  | [] => ret []
  | c :: r =>
      match poly_simplify O self_tl (Some c) with
      | inl t => rest <- simplify_row O self_tl r ;; ret (t :: rest)
      | inr e => if is_value_error e then simplify_row O self_tl r else inr e
      end
  end.
Fixpoint simplify_all (O : oracle) (a ctx : nested) : M nested :=
  match a with
  | [] => ret []
  | s :: r => x <- simplify_row O s ctx ;; y <- simplify_all O r ctx ;; ret (x ++ y)
  end.
Definition nested_simplify (O : oracle) (a ctx : nested) (force : bool) : M nested :=
  l <- simplify_all O a ctx ;; nested_init O l force.

(* ---------- intersect ---------- *)
(* for other_tl in other: new_tl = self_tl | other_tl; if not new_tl.is_empty(): append *)
Fixpoint inter_row (O : oracle) (self_tl : list pterm) (others : nested) : M nested :=
  match others with
  | [] => ret []
  | o :: r =>
      let new_tl := tl_or self_tl o in
      e <- poly_is_empty O new_tl ;;
      rest <- inter_row O self_tl r ;;
      ret (if e then rest else new_tl :: rest)
  end.
Fixpoint inter_all (O : oracle) (a b : nested) : M nested :=
  match a with
  | [] => ret []
  | s :: r => x <- inter_row O s b ;; y <- inter_all O r b ;; ret (x ++ y)
  end.
Definition nested_intersect (O : oracle) (a b : nested) (force : bool) : M nested :=
  l <- inter_all O a b ;; nested_init O l force.

(* ---------- vars ---------- *)
Definition nested_vars (a : nested) : list var :=
  fold_left (fun acc tl => list_union acc (tl_vars tl)) a [].

(* ---------- contains_behavior ---------- *)
(* except ValueError as e: raise ValueError from e   (a subclass instance is re-raised as a plain ValueError) *)
Fixpoint nested_contains (a : nested) (b : behavior) : M bool :=
  match a with
  | [] => ret false
  | tl :: r =>
      match contains_behavior tl b with
      | inl true => ret true
      | inl false => nested_contains r b
      | inr e => if is_value_error e then raise ValueErr else inr e
      end
  end.

(* ---------- IoContractCompound ---------- *)
Record compound : Type := mkCompound { k_a : nested; k_g : nested; k_inputvars : list var; k_outputvars : list var }.

(* __init__ : the five interface checks raise ValueError (not IncompatibleArgsError) *)
Definition compound_init (O : oracle) (assumptions guarantees : nested) (input_vars output_vars : list var) : M compound :=
  if has_dup input_vars then raise ValueErr
  else if has_dup output_vars then raise ValueErr
  else if nonempty (list_intersection input_vars output_vars) then raise ValueErr
  else if nonempty (list_diff (nested_vars assumptions) input_vars) then raise ValueErr
  else if nonempty (list_diff (nested_vars guarantees) (list_union input_vars output_vars)) then raise ValueErr
  else
    a <- nested_copy O assumptions true ;;
    g <- nested_copy O guarantees false ;;
    ret (mkCompound a g input_vars output_vars).

(* __eq__ : `and` chain, short-circuit; list == list on Var compares names *)
Definition compound_eqb (O : oracle) (c1 c2 : compound) : M bool :=
  if negb (py_eqb (k_inputvars c1) (k_inputvars c2)) then ret false
  else if negb (py_eqb (k_outputvars c1) (k_outputvars c2)) then ret false
  else x <- nested_eqb O (k_a c1) (k_a c2) ;;
       if x then nested_eqb O (k_g c1) (k_g c2) else ret false.

(* merge *)
Definition compound_merge (O : oracle) (c1 c2 : compound) : M compound :=
  let input_vars := list_union (k_inputvars c1) (k_inputvars c2) in
  let output_vars := list_union (k_outputvars c1) (k_outputvars c2) in
  assumptions <- nested_intersect O (k_a c1) (k_a c2) true ;;
  guarantees <- nested_intersect O (k_g c1) (k_g c2) false ;;
  compound_init O assumptions guarantees input_vars output_vars.

(* PolyhedralIoContractCompound.from_strings, after the strings have been parsed (parsing is model/Ast.v's
   business): NestedPolyhedra(a, True), NestedPolyhedra(g, False), then the constructor *)
Definition compound_from_parsed (O : oracle) (a g : nested) (input_vars output_vars : list var) : M compound :=
  a' <- nested_init O a true ;;
  g' <- nested_init O g false ;;
  compound_init O a' g' input_vars output_vars.
