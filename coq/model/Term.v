(* Term.v — hand-written executable model of pacti.terms.polyhedra.polyhedra.PolyhedralTerm
   (exact rationals instead of floats).  Each definition names the Python it mirrors.
   Definitions only; facts are in proofs/TermFacts.v.  Tie to the code: correspondence
   (harness/corr_term.py runs both on the same inputs). *)
From Coq Require Import List String Bool QArith Qabs ZArith Ascii.
Import ListNotations.
Require Import Py ListsGen Sem.
Require Export PyDict.
Local Open Scope Q_scope.

(* numbers (qzero, qadd, … qlt) and the association-list primitives (assoc, has_key, dict_set,
   dict_pop, keys) live in base/PyDict.v since the translator targets them too (gen/TermGen.v). *)

(* PolyhedralTerm.__init__ : zero coefficients are dropped *)
Definition mk_term (variables : pvars) (c : Q) : pterm :=
  mkT (filter (fun p => negb (qzero (snd p))) variables) c.

(* .vars *)
Definition term_vars_p (t : pterm) : list var := keys (tvars t).
(* .contains_var *)
Definition contains_var (t : pterm) (v : var) : bool := py_in v (term_vars_p t).
(* .get_coefficient *)
Definition get_coefficient (t : pterm) (v : var) : Q :=
  if contains_var t v then match assoc v (tvars t) with Some q => q | None => 0 end else 0.

(* dict.keys() == dict.keys() is a set comparison *)
Definition keys_equal (l1 l2 : pvars) : bool :=
  forallb (fun k => has_key k l2) (keys l1) && forallb (fun k => has_key k l1) (keys l2).
(* PolyhedralTerm.__eq__ *)
Definition term_eqb_p (t1 t2 : pterm) : bool :=
  keys_equal (tvars t1) (tvars t2)
  && forallb (fun p => match assoc (fst p) (tvars t2) with
                       | Some q => Qeq_bool (snd p) q | None => false end) (tvars t1)
  && Qeq_bool (tconst t1) (tconst t2).

(* .copy *)
Definition term_copy (t : pterm) : pterm := mk_term (tvars t) (tconst t).

(* __add__ *)
Definition term_add (t1 t2 : pterm) : pterm :=
  let varlist := list_union (term_vars_p t1) (term_vars_p t2) in
  mk_term (map (fun v => (v, qadd (get_coefficient t1 v) (get_coefficient t2 v))) varlist)
          (qadd (tconst t1) (tconst t2)).

(* .remove_variable *)
Definition term_remove_variable (t : pterm) (v : var) : pterm :=
  if contains_var t v then
    let that := term_copy t in mkT (dict_pop (tvars that) v) (tconst that)
  else term_copy t.

(* .multiply *)
Definition term_multiply (t : pterm) (f : Q) : pterm :=
  mk_term (map (fun p => (fst p, qmul f (snd p))) (tvars t)) (qmul f (tconst t)).

(* .substitute_variable : subst_with_term is read as  var = Σ coeffs - constant *)
Definition term_substitute_variable (t : pterm) (v : var) (s : pterm) : pterm :=
  if contains_var t v then
    let term := term_multiply s (get_coefficient t v) in
    let that := term_remove_variable t v in
    term_add that term
  else term_copy t.

(* .isolate_variable *)
Definition term_isolate_variable (t : pterm) (v : var) : M pterm :=
  if negb (py_in v (term_vars_p t)) then raise ValueErr
  else
    let a := get_coefficient t v in
    ret (mk_term (map (fun p => (fst p, qdiv (qneg (snd p)) a))
                      (filter (fun p => negb (String.eqb (fst p) v)) (tvars t)))
                 (qdiv (qneg (tconst t)) a)).

(* .rename_variable(source, target) *)
Definition term_rename_variable (t : pterm) (s u : var) : pterm :=
  let new_term := term_copy t in
  if py_in s (term_vars_p t) then
    let vars1 := if negb (py_in u (term_vars_p t)) then dict_set (tvars new_term) u 0 else tvars new_term in
    let cu := match assoc u vars1 with Some q => q | None => 0 end in
    let cs := match assoc s vars1 with Some q => q | None => 0 end in
    let vars2 := dict_set vars1 u (qadd cu cs) in
    term_remove_variable (mkT vars2 (tconst new_term)) s
  else new_term.

(* .get_polarity / .get_sign : raise KeyError when the variable is absent *)
Definition term_get_polarity (t : pterm) (v : var) (polarity : bool) : M bool :=
  match assoc v (tvars t) with
  | None => raise (Escape "KeyError")
  | Some q => ret (if polarity then qle 0 q else qle q 0)
  end.
Definition term_get_sign (t : pterm) (v : var) : M Q :=
  b <- term_get_polarity t v true ;; ret (if b then 1 else -(1)).

(* ---------- hashing: hash(str(self)); str sorts the items by variable name ---------- *)
Definition ascii_cmp (a b : ascii) : comparison :=
  N.compare (N_of_ascii a) (N_of_ascii b).
Fixpoint string_cmp (s1 s2 : string) : comparison :=
  match s1, s2 with
  | EmptyString, EmptyString => Eq
  | EmptyString, _ => Lt
  | _, EmptyString => Gt
  | String a r1, String b r2 => match ascii_cmp a b with Eq => string_cmp r1 r2 | c => c end
  end.
Definition string_leb (s1 s2 : string) : bool :=
  match string_cmp s1 s2 with Gt => false | _ => true end.
(* stable insertion sort by name: list.sort(key=lambda x: str(x[0])) *)
Fixpoint insert_by_name (p : var * Q) (l : pvars) : pvars :=
  match l with
  | [] => [p]
  | q :: r => if string_leb (fst q) (fst p) then q :: insert_by_name p r else p :: q :: r
  end.
Definition sort_by_name (l : pvars) : pvars := fold_left (fun acc p => insert_by_name p acc) l [].
(* the data str(term) is a function of (injectively, up to signed zero): *)
Definition term_key (t : pterm) : list (var * Q) * Q :=
  (map (fun p => (fst p, Qred (snd p))) (sort_by_name (tvars t)), Qred (tconst t)).
Definition key_eqb (k1 k2 : list (var * Q) * Q) : bool :=
  list_eqb (A:=var) (map fst (fst k1)) (map fst (fst k2))
  && forallb (fun pq => Qeq_bool (snd (fst pq)) (snd (snd pq))) (combine (fst k1) (fst k2))
  && Qeq_bool (snd k1) (snd k2).

(* ---------- TermList-level helpers that PolyhedralTermList adds ---------- *)
(* TermList.vars for polyhedral terms (fold of list_union over t.vars) *)
Definition tl_vars (ts : list pterm) : list var :=
  fold_left (fun acc t => list_union acc (term_vars_p t)) ts [].

#[global] Instance PyEq_pterm : PyEq pterm := {| py_eqb := term_eqb_p |}.

(* evaluate / contains_behavior *)
Definition behavior := list (var * Q).       (* dict Var -> number, insertion order *)
Definition eval_term (t : pterm) (b : behavior) : pterm :=
  fold_left (fun nt p => term_substitute_variable nt (fst p) (mk_term [] (qneg (snd p)))) b (term_copy t).
(* PolyhedralTermList.evaluate *)
Fixpoint evaluate (ts : list pterm) (b : behavior) : M (list pterm) :=
  match ts with
  | [] => ret []
  | t :: r =>
      let nt := eval_term t b in
      if nonempty (term_vars_p nt) then
        rest <- evaluate r b ;; ret (nt :: rest)
      else if qlt (tconst nt) 0 then raise ValueErr
      else evaluate r b
  end.
(* PolyhedralTermList.contains_behavior *)
Definition contains_behavior (ts : list pterm) (b : behavior) : M bool :=
  let excess := list_diff (tl_vars ts) (keys b) in
  if nonempty excess then raise ValueErr
  else try_value_error (_ <- evaluate ts b ;; ret true) (ret false).
