#!/bin/sh
# Cold build of the Coq development from files on disk only (offline).
set -e
cd "$(dirname "$0")"
exec ./check --setup
